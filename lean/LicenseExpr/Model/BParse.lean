import LicenseExpr.Model.Expr
/-!
# Model/BParse — `boolean.BooleanAlgebra.parse` as a stack machine

`ast = [parent, op, item, item, …]` becomes a stack of frames; the newest item of a frame is
the head of `ritems`. `check_tokens_sequence` (the pair checks that `Licensing.parse` adds in
front of boolean.py) is part of `adjCheck`. Outcomes include the crashes of the un-repaired
parser (`crashIndex`, `crashAssert`) so that the model can say that they are unreachable.
-/
namespace LE
namespace BP

inductive Tok (α : Type) where
  | sym (a : α) | and | or | lpar | rpar
deriving Repr, DecidableEq

inductive FOp where | none | and | or | lpar
deriving Repr, DecidableEq

/-- `ritems`: the frame's operands, newest first (Python appends at the end; we cons at the head) -/
structure Frame (α : Type) where
  op : FOp
  ritems : List (Expr α)
deriving Repr

inductive PErr where
  | unbalanced | invalidExpr | nesting | symSeq | opSeq
  | arityAnd | arityOr
  | crashIndex | crashAssert
deriving Repr, DecidableEq

abbrev Stack (α : Type) := List (Frame α)

variable {α : Type}

/-- `ast[1](*ast[2:])`: `license_expression.AND/OR.__init__` refuse fewer than two operands -/
def mk (op : FOp) (ritems : List (Expr α)) : Except PErr (Expr α) :=
  match op with
  | .and => match ritems with
    | a :: b :: r => .ok (.node .and (a :: b :: r).reverse)
    | _ => .error .arityAnd
  | .or  => match ritems with
    | a :: b :: r => .ok (.node .or (a :: b :: r).reverse)
    | _ => .error .arityOr
  | .lpar => .error .invalidExpr
  | .none => .error .invalidExpr

def prec : FOp → Nat
  | .none => 0 | .and => 10 | .or => 15 | .lpar => 20

/-- `_start_operation` -/
def startOp (op : FOp) (cur : Frame α) (rest : List (Frame α)) : Except PErr (Stack α) :=
    if cur.op = .none then .ok ({ cur with op := op } :: rest)
    else if prec cur.op > prec op then
      match cur.ritems with
      | x :: more => .ok ({ op := op, ritems := [x] } :: { cur with ritems := more } :: rest)
      | [] => .error .crashAssert
    else if prec cur.op = prec op then .ok (cur :: rest)
    else
      match mk cur.op cur.ritems with
      | .error e => .error e
      | .ok sub =>
        match rest with
        | [] => .ok [{ op := op, ritems := [sub] }]
        | parent :: rest' => startOp op { parent with ritems := sub :: parent.ritems } rest'

/-- the `TOKEN_RPAR` loop -/
def closeParen (cur : Frame α) : List (Frame α) → Except PErr (Stack α)
  | [] => .error .unbalanced
  | parent :: rest =>
    if cur.op = .lpar then
      match cur.ritems.getLast? with      -- Python: ast[2], the FIRST item of the paren frame
      | some x => .ok ({ parent with ritems := x :: parent.ritems } :: rest)
      | none => .error .crashIndex
    else
      match mk cur.op cur.ritems with
      | .error e => .error e
      | .ok sub => closeParen { parent with ritems := sub :: parent.ritems } rest

/-- the final loop after the last token -/
def finish (cur : Frame α) : List (Frame α) → Except PErr (Expr α)
  | [] =>
    if cur.op = .none then
      match cur.ritems with
      | [x] => .ok x
      | _ => .error .invalidExpr
    else mk cur.op cur.ritems
  | parent :: rest =>
    match mk cur.op cur.ritems with
    | .error e => .error e
    | .ok sub => finish { parent with ritems := sub :: parent.ritems } rest

def isSym : Tok α → Bool | .sym _ => true | _ => false
def isOp : Tok α → Bool | .and => true | .or => true | _ => false

/-- the checks on `(previous token, token)`: first those of `check_tokens_sequence`, then those at
    the top of boolean.py's loop -/
def adjCheck (prev : Option (Tok α)) (t : Tok α) : Except PErr Unit :=
  match prev with
  | some p =>
    if (p matches .rpar) && isSym t then .error .symSeq
    else if (p matches .lpar) && isOp t then .error .opSeq
    else if (p matches .lpar) && (t matches .rpar) then .error .nesting
    else if isSym p && isSym t then .error .symSeq
    else if isOp p && (isOp t || t matches .rpar) then .error .opSeq
    else .ok ()
  | none => if isOp t then .error .opSeq else .ok ()

def step (prev : Option (Tok α)) (st : Stack α) (t : Tok α) : Except PErr (Stack α) := do
  adjCheck prev t
  match t with
  | .sym a =>
    match st with
    | cur :: rest => .ok ({ cur with ritems := .atom a :: cur.ritems } :: rest)
    | [] => .error .crashIndex
  | .and => match st with | cur :: rest => startOp .and cur rest | [] => .error .crashIndex
  | .or => match st with | cur :: rest => startOp .or cur rest | [] => .error .crashIndex
  | .lpar =>
    match prev with
    | some p => if (p matches .and) || (p matches .or) || (p matches .lpar) then .ok ({ op := .lpar, ritems := [] } :: st) else .error .nesting
    | none => .ok ({ op := .lpar, ritems := [] } :: st)
  | .rpar => match st with | cur :: rest => closeParen cur rest | [] => .error .crashIndex

structure PState (α : Type) where
  prev : Option (Tok α)
  st : Stack α

def stepS (s : PState α) (t : Tok α) : Except PErr (PState α) := do
  let st' ← step s.prev s.st t
  pure ⟨some t, st'⟩

def run (s : PState α) (ts : List (Tok α)) : Except PErr (PState α) := ts.foldlM stepS s

def init : PState α := ⟨none, [{ op := .none, ritems := [] }]⟩

def parse (ts : List (Tok α)) : Except PErr (Expr α) := do
  let s ← run init ts
  match s.st with | cur :: rest => finish cur rest | [] => .error .crashIndex

/-- the same machine, reporting the index of the token at which a step fails
    (`none`: the failure is in the final loop) -/
def runAt (s : PState α) (i : Nat) : List (Tok α) → Except (PErr × Option Nat) (PState α)
  | [] => .ok s
  | t :: ts =>
    match stepS s t with
    | .error e => .error (e, some i)
    | .ok s' => runAt s' (i+1) ts

def parseAt (ts : List (Tok α)) : Except (PErr × Option Nat) (Expr α) :=
  match runAt init 0 ts with
  | .error e => .error e
  | .ok s =>
    match s.st with
    | cur :: rest => (match finish cur rest with | .ok e => .ok e | .error e => .error (e, none))
    | [] => .error (.crashIndex, none)

end BP
end LE
