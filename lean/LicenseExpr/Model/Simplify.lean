import LicenseExpr.Model.Expr
/-!
# Model/Simplify — `DualBase.simplify`, `flatten`, `absorb`, `Expression.__eq__`, `__lt__`,
`__contains__` of boolean.py, for NOT-free expressions (all a license expression can be)
-/
namespace LE
variable {A : Type} [DecidableEq A]

/-- Python `Expression.__eq__`: same class and `frozenset(args)` equal; literals by value -/
def eqE : Expr A → Expr A → Bool
  | .atom a, .atom b => a == b
  | .node o1 as, .node o2 bs =>
      o1 == o2 && as.attach.all (fun a => bs.attach.any (fun b => eqE a.1 b.1))
               && bs.attach.all (fun b => as.attach.any (fun a => eqE b.1 a.1))
  | _, _ => false
termination_by a b => sizeOf a + sizeOf b
decreasing_by
  all_goals simp_wf
  all_goals (have := List.sizeOf_lt_of_mem a.2; have := List.sizeOf_lt_of_mem b.2; omega)

/-- `flatten()`: one level, same operator only -/
def flatten1 (op : Op) : List (Expr A) → List (Expr A)
  | [] => []
  | .node o as :: rest => if o = op then as ++ flatten1 op rest else .node o as :: flatten1 op rest
  | .atom a :: rest => .atom a :: flatten1 op rest

/-- `x in l` for a list of expressions -/
def memE (x : Expr A) (l : List (Expr A)) : Bool := l.any (fun y => eqE x y)

/-- `for arg in expr.args: if arg not in args: args.append(arg)` -/
def dedupAux (seen : List (Expr A)) : List (Expr A) → List (Expr A)
  | [] => []
  | a :: r => if memE a seen then dedupAux seen r else a :: dedupAux (seen ++ [a]) r

/-- `DualBase.__contains__` : `x in t` -/
def containsE (t x : Expr A) : Bool :=
  match t with
  | .atom _ => false
  | .node o ts => memE x ts ||
      (match x with
       | .node o' xs => o' == o && xs.all (fun y => memE y ts)
       | .atom _ => false)

def isDual (op : Op) : Expr A → Bool
  | .node o _ => o == op.dual
  | .atom _ => false

/-- remove the first operand that is a dual node containing another operand (by position) -/
def absorbStep (op : Op) (pre : List (Expr A)) : List (Expr A) → Option (List (Expr A))
  | [] => none
  | t :: post =>
    if isDual op t && (pre ++ post).any (fun a => containsE t a) then some (pre ++ post)
    else absorbStep op (pre ++ [t]) post

/-- `absorb(args)` for NOT-free operands: what the double loop computes -/
def absorbN (op : Op) : Nat → List (Expr A) → List (Expr A)
  | 0, l => l
  | n+1, l => match absorbStep op [] l with
    | none => l
    | some l' => absorbN op n l'

/-- stable insertion sort by `lt` (Python's `list.sort` on `<`) -/
def insertBy (lt : Expr A → Expr A → Bool) (x : Expr A) : List (Expr A) → List (Expr A)
  | [] => [x]
  | y :: ys => if lt y x then y :: insertBy lt x ys else x :: y :: ys

def sortBy (lt : Expr A → Expr A → Bool) : List (Expr A) → List (Expr A)
  | [] => []
  | x :: xs => insertBy lt x (sortBy lt xs)

def finishNode (lt : Expr A → Expr A → Bool) (op : Op) (ab : List (Expr A)) : Expr A :=
  match ab with
  | [x] => x
  | ab => .node op (sortBy lt ab)

def afterDedup (lt : Expr A → Expr A → Bool) (op : Op) (dd : List (Expr A)) : Expr A :=
  match dd with
  | [x] => x
  | dd => finishNode lt op (absorbN op dd.length dd)

/-- the simplification of one node whose operands are already simplified -/
def simpNode (lt : Expr A → Expr A → Bool) (op : Op) (args : List (Expr A)) : Expr A :=
  afterDedup lt op (dedupAux [] (flatten1 op args))

/-- `simplify()` with the comparison `lt` used by the final sort -/
def simp (lt : Expr A → Expr A → Bool) : Expr A → Expr A
  | .atom a => .atom a
  | .node op args => simpNode lt op (args.attach.map (fun a => simp lt a.1))
termination_by e => sizeOf e
decreasing_by
  simp_wf
  have := List.sizeOf_lt_of_mem a.2
  omega

/-! ### the comparison boolean.py uses: `Expression.__lt__`, `Symbol.__lt__`, `DualBase.__lt__` -/

def sortOrder : Op → Nat | .and => 10 | .or => 25

mutual
/-- `a < b` as `list.sort` sees it: symbols by `ltA`, a symbol before any node, AND before OR,
    two nodes of one kind by `ltL` -/
def ltE (ltA : A → A → Bool) : Expr A → Expr A → Bool
  | .atom a, .atom b => ltA a b
  | .atom _, .node _ _ => true            -- sort_order 5 < 10, 25
  | .node _ _, .atom _ => false
  | .node o1 as, .node o2 bs =>
    if o1 ≠ o2 then decide (sortOrder o1 < sortOrder o2) else ltL ltA as bs
/-- the loop of `DualBase.__lt__`: skip equal operands, decide on the first pair that differs,
    then on the lengths -/
def ltL (ltA : A → A → Bool) : List (Expr A) → List (Expr A) → Bool
  | [], [] => false
  | [], _ :: _ => true
  | _ :: _, [] => false
  | x :: xs, y :: ys => if eqE x y then ltL ltA xs ys else ltE ltA x y
end

end LE
