/-!
# Model/Sexp — the wire format of the driver: s-expressions over numbers, tags and strings

A string is written `c` followed by its code points in decimal joined by `.` (`c` alone is the
empty string); a number is a run of digits; anything else is a tag.
-/
namespace LE

inductive SX where
  | num (n : Nat)
  | tag (s : String)
  | str (s : List Nat)
  | list (l : List SX)
deriving Repr, Inhabited

namespace SX

partial def toStr : SX → String
  | .num n => toString n
  | .tag s => s
  | .str s => "c" ++ ".".intercalate (s.map toString)
  | .list l => "(" ++ " ".intercalate (l.map toStr) ++ ")"

def parseAtom (s : String) : SX :=
  if s.length > 0 && s.all Char.isDigit then .num s.toNat!
  else if s.startsWith "c" && (s.drop 1).all (fun ch => ch.isDigit || ch == '.') then
    let body := (s.drop 1).toString
    if body.isEmpty then .str [] else .str ((body.splitOn ".").map String.toNat!)
  else .tag s

/-- split a line into "(", ")" and atoms -/
def lexLine (s : String) : List String := Id.run do
  let mut out : Array String := #[]
  let mut cur : String := ""
  for ch in s.toList do
    if ch == '(' || ch == ')' then
      if !cur.isEmpty then out := out.push cur; cur := ""
      out := out.push (String.singleton ch)
    else if ch == ' ' || ch == '\t' || ch == '\n' || ch == '\r' then
      if !cur.isEmpty then out := out.push cur; cur := ""
    else cur := cur.push ch
  if !cur.isEmpty then out := out.push cur
  return out.toList

/-- parse a sequence of s-expressions; returns the parsed list and the rest after a ")" -/
partial def parseSeq (toks : List String) (acc : Array SX) : List SX × List String :=
  match toks with
  | [] => (acc.toList, [])
  | ")" :: rest => (acc.toList, rest)
  | "(" :: rest =>
    let (inner, rest') := parseSeq rest #[]
    parseSeq rest' (acc.push (.list inner))
  | t :: rest => parseSeq rest (acc.push (parseAtom t))

def parseLine (s : String) : List SX := (parseSeq (lexLine s) #[]).1

def ofBool (b : Bool) : SX := .num (if b then 1 else 0)
def ofInt (i : Int) : SX := if i < 0 then .tag ("m" ++ toString i.natAbs) else .num i.toNat

def getStr : SX → List Nat | .str s => s | _ => []
def getNum : SX → Nat | .num n => n | _ => 0
def getBool : SX → Bool | .num n => n != 0 | _ => false
def getList : SX → List SX | .list l => l | _ => []
def getTag : SX → String | .tag s => s | _ => ""

end SX
end LE
