import LicenseExpr.Model.Table
import LicenseExpr.Model.Dedup
/-!
# Model/Api — `Licensing.parse`, `validate`, `is_equivalent`, `contains`, `dedup` on strings
-/
namespace LE

inductive Outcome where
  | blank                                              -- `None`
  | ok (e : Expr Atom)
  | exprErr (unknown : Option (List Str))              -- ExpressionError; `some ks`: "Unknown license key(s)"
  | parseErr (code : Nat) (str : Str) (pos : Int)      -- ExpressionParseError
  | crash (kind : Nat)                                 -- any other exception type (1 IndexError, 2 AssertionError)
deriving Repr

def ofLErr : LErr → Outcome
  | .expr => .exprErr none
  | .parse c s p => .parseErr c s p

/-- how an error of the stack machine surfaces from `Licensing.parse` -/
def ofPErr (toks : List PTok) (e : BP.PErr) (idx : Option Nat) : Outcome :=
  let at_ (code : Nat) : Outcome :=
    match idx.bind (fun i => toks[i]?) with
    | some t => .parseErr code t.str t.pos
    | none => .parseErr code [] (-1)
  match e with
  | .unbalanced => at_ Gen.PARSE_UNBALANCED_CLOSING_PARENS
  | .nesting => at_ Gen.PARSE_INVALID_NESTING
  | .symSeq => at_ Gen.PARSE_INVALID_SYMBOL_SEQUENCE
  | .opSeq => at_ Gen.PARSE_INVALID_OPERATOR_SEQUENCE
  | .invalidExpr => .parseErr Gen.PARSE_INVALID_EXPRESSION [] (-1)
  | .arityAnd => .exprErr none
  | .arityOr => .exprErr none
  | .crashIndex => .crash 1
  | .crashAssert => .crash 2

/-- `Licensing.parse(text, validate, strict, simple)` for a `str` argument, with the cached automaton `tr` -/
def parseFullW (c : Cls) (T : Table) (tr : Trie TVal) (simple strict validate : Bool) (text : Str) : Outcome :=
  if text.isEmpty || isBlank c text then .blank
  else
    match ltokW c T tr simple strict text with
    | .error e => ofLErr e
    | .ok toks =>
      match BP.parseAt (toks.map (·.t)) with
      | .error (e, idx) => ofPErr toks e idx
      | .ok e =>
        if validate then
          let ks := unknownKeys (knownKeys T) e true
          if ks.isEmpty then .ok e else .exprErr (some ks)
        else .ok e

/-- `Licensing.parse` on a Licensing whose automaton is built from its own table -/
def parseFull (c : Cls) (T : Table) (simple strict validate : Bool) (text : Str) : Outcome :=
  parseFullW c T (buildTrie c T) simple strict validate text

/-- the report of `Licensing.validate` -/
structure Info where
  normalized : Option Str
  nerrors : Nat
  invalid : List Str
deriving Repr

inductive VOutcome where
  | info (i : Info)
  | crash (kind : Nat)
deriving Repr

/-- `Licensing.validate(text, strict)` for a non-blank `str` argument -/
def validateFullW (c : Cls) (T : Table) (tr : Trie TVal) (strict : Bool) (text : Str) : VOutcome :=
  match parseFullW c T tr false strict false text with
  | .blank => .crash 3                       -- `validate_license_keys(None)` is outside the claim
  | .crash k => .crash k
  | .exprErr _ => .info ⟨none, 1, []⟩
  | .parseErr _ s _ => .info ⟨none, 1, if s.isEmpty then [] else [s]⟩
  | .ok e =>
    -- `validate_license_keys(expression)` parses the *string* again, non-strictly
    match parseFullW c T tr false false false text with
    | .ok e' =>
      let ks := unknownKeys (knownKeys T) e' true
      if ks.isEmpty then .info ⟨some (renderStr e), 0, []⟩
      else .info ⟨none, 1, ks⟩
    | .exprErr _ => .info ⟨none, 1, []⟩     -- cannot happen (C12): lax accepts what strict accepts
    | .parseErr _ _ _ => .crash 4
    | .blank => .crash 3
    | .crash k => .crash k

def validateFull (c : Cls) (T : Table) (strict : Bool) (text : Str) : VOutcome :=
  validateFullW c T (buildTrie c T) strict text

def ltAtom (a b : Atom) : Bool := a.lt b

/-- `expression.simplify()` -/
def simplifyE (e : Expr Atom) : Expr Atom := simp (ltE ltAtom) e

/-- `Licensing.is_equivalent` on parsed expressions -/
def equivE (a b : Expr Atom) : Bool := eqE (simplifyE a) (simplifyE b)

/-- `ex2 in ex1` after simplification: `Licensing.contains(ex1, ex2)` -/
def containsTop (a b : Expr Atom) : Bool :=
  match simplifyE a, simplifyE b with
  | .atom x, .atom y => x.containsA y
  | .atom _, .node _ _ => false
  | .node o ts, y => containsE (.node o ts) y

/-- `Licensing.is_equivalent(text1, text2)` / `Licensing.contains(text1, text2)` on strings: each side is
    parsed (default flags) and simplified; an empty or blank string is `None`, which equals only `None`
    and which nothing contains; `none`: an ExpressionError is raised (`contains` of something in `None`
    raises TypeError, also `none` here) -/
def equivText (c : Cls) (T : Table) (s1 s2 : Str) : Option Bool :=
  match parseFull c T false false false s1, parseFull c T false false false s2 with
  | .ok a, .ok b => some (equivE a b)
  | .blank, .blank => some true
  | .blank, .ok _ => some false
  | .ok _, .blank => some false
  | _, _ => none

def containsText (c : Cls) (T : Table) (s1 s2 : Str) : Option Bool :=
  match parseFull c T false false false s1, parseFull c T false false false s2 with
  | .ok a, .ok b => some (containsTop a b)
  | .ok _, .blank => some false
  | _, _ => none

end LE
