import LicenseExpr.Model.Lex
/-!
# Model/Symbol — `LicenseSymbol`, `LicenseSymbolLike`, `LicenseWithExceptionSymbol` as values;
key normalisation of `LicenseSymbol.__init__`
-/
namespace LE

/-- a plain license symbol (also a wrapper around a user object): identified by key and flag -/
structure Sym where
  key : Str
  exc : Bool
deriving DecidableEq, Repr

/-- a literal of an expression: a plain symbol or a `license WITH exception` pair -/
inductive Atom where
  | lic (a : Sym)
  | withE (l e : Sym)
deriving DecidableEq, Repr

inductive Kw | and | or | lpar | rpar | with
deriving DecidableEq, Repr

def Kw.spelling : Kw → Str
  | .and => sAND | .or => sOR | .lpar => sLPAR | .rpar => sRPAR | .with => sWITH

/-- `KEYWORDS`, in the order of the source -/
def KEYWORDS : List Kw := [.and, .or, .lpar, .rpar, .with]
def keywordStrings : List Str := KEYWORDS.map Kw.spelling

/-- `s.strip()` -/
def stripStr (c : Cls) (s : Str) : Str :=
  ((s.dropWhile c.isSpace).reverse.dropWhile c.isSpace).reverse

/-- `s.split()`: maximal runs of non-blank characters (parentheses are ordinary characters here) -/
def splitGo (c : Cls) : Str → Str → List Str
  | cur, [] => if cur.isEmpty then [] else [cur.reverse]
  | cur, x :: xs =>
    if c.isSpace x then (if cur.isEmpty then splitGo c [] xs else cur.reverse :: splitGo c [] xs)
    else splitGo c (x :: cur) xs

def splitWs (c : Cls) (s : Str) : List Str := splitGo c [] s

/-- `' '.join(s.split())` -/
def collapse (c : Cls) (s : Str) : Str := joinStr [SPACE] (splitWs c s)

/-- `LicenseSymbol.__init__` on a `str` key: the normalised key, or `none` for ExpressionError -/
def normKey (c : Cls) (raw : Str) : Option Str :=
  if raw.isEmpty then none
  else
    let k := stripStr c raw
    if k.isEmpty then none
    else if !(k.all c.isKeyChar) then none
    else
      let k' := collapse c k
      if keywordStrings.contains (c.fold k') then none else some k'

/-- `str(symbol)` -/
def Atom.render : Atom → Str
  | .lic a => a.key
  | .withE l e => l.key ++ [SPACE] ++ [87, 73, 84, 72] ++ [SPACE] ++ e.key     -- " WITH "

/-- `decompose()` -/
def Atom.decompose : Atom → List Sym
  | .lic a => [a]
  | .withE l e => [l, e]

/-- `BaseSymbol.__contains__`: `other in self` -/
def Atom.containsA (self other : Atom) : Bool :=
  self == other || self.decompose.any (fun m => Atom.lic m == other)

/-- `symbol.__lt__`: string order of the renderings, for every kind of symbol -/
def Atom.lt (a b : Atom) : Bool := strLt a.render b.render

end LE
