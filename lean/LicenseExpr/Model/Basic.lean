/-!
# Model/Basic — strings, character classes

Strings are lists of code points (`Nat`). What Python supplies about characters is a
*parameter* of the model (`Cls`): the `\s` class, the key-character class
`[-:\w\s\.\+]` and `str.lower()` per character. Every theorem is proved for all `Cls`;
the driver instantiates it from the table the harness sends.
-/
namespace LE

abbrev Str := List Nat

def LPAR : Nat := 40
def RPAR : Nat := 41
def SPACE : Nat := 32

structure Cls where
  isSpace : Nat → Bool
  isKeyChar : Nat → Bool
  lower : Nat → List Nat

/-- `str.lower()` of one word (no context-dependent rule: the harness keeps final sigma out) -/
def Cls.fold (c : Cls) (w : Str) : Str := w.flatMap c.lower

/-- ASCII spellings used by the source: `and`, `or`, `with` -/
def sAND : Str := [97, 110, 100]
def sOR : Str := [111, 114]
def sWITH : Str := [119, 105, 116, 104]
def sLPAR : Str := [LPAR]
def sRPAR : Str := [RPAR]

/-- lexicographic `<` on code points: Python's `str.__lt__` -/
def strLt : Str → Str → Bool
  | [], [] => false
  | [], _ :: _ => true
  | _ :: _, [] => false
  | a :: as, b :: bs => if a < b then true else if b < a then false else strLt as bs

/-- join strings with a separator string -/
def joinStr (sep : Str) : List Str → Str
  | [] => []
  | [x] => x
  | x :: y :: r => x ++ sep ++ joinStr sep (y :: r)

end LE
