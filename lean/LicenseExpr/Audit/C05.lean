import LicenseExpr.Props.C05
#print axioms LE.C05_tokens
#print axioms LE.C05_readable_tokens
#print axioms LE.C05_simplify_wf
#print axioms LE.C05_render_is_skeleton
#print axioms LE.C05_template
#print axioms LE.C05_readable_is_skeleton
#print axioms LE.C05_text_simple
#print axioms LE.C05_text_default
#print axioms LE.C05_fixpoint
#print axioms LE.C05_text_general
#print axioms LE.C05_text_proviso
#print axioms LE.C05_fixpoint_general
#print axioms LE.C05_key_ok
