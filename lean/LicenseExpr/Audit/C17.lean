import LicenseExpr.Props.C17
#print axioms LE.C17_ordered_disjoint
#print axioms LE.C17_kept_sub
#print axioms LE.C17_leftmost_longest
#print axioms LE.C17_isolated
#print axioms LE.C17_pair
#print axioms LE.C17_pair_partial
#print axioms LE.C17_slice
#print axioms LE.C17_lossless
#print axioms LE.C17_cover
#print axioms LE.tok_pairwise_cases
#print axioms LE.C17_once
#print axioms LE.iterGo_unmatched_piece
#print axioms LE.C17_reappear
#print axioms LE.C17_pair_words
