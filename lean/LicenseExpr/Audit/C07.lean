import LicenseExpr.Props.C07
#print axioms LE.ltAtom_asymm
#print axioms LE.C07_nf
#print axioms LE.C07_nf_any_order
#print axioms LE.C07_atom_order_total
#print axioms LE.C07_idem
#print axioms LE.C07_idem_any_order
#print axioms LE.C07_absorb_free
#print axioms LE.atomOrd_of_renderDistinct
#print axioms LE.C07_rewrite
#print axioms LE.C07_rewrite_text
#print axioms LE.C07_perm
#print axioms LE.C07_needs_render_distinct
#print axioms LE.C07_sort_idem_partial
