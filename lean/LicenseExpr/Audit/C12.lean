import LicenseExpr.Props.C12
#print axioms LE.C12_group_iff
#print axioms LE.C12_stage_noPairs
#print axioms LE.C12_ltok_iff
#print axioms LE.C12_flags
#print axioms LE.C12_offending
#print axioms LE.C12_offending_ltok
