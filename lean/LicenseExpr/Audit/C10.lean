import LicenseExpr.Props.C10
#print axioms LE.C10_symbols
#print axioms LE.C10_unique_spec
#print axioms LE.C10_decompose
#print axioms LE.C10_primary
#print axioms LE.C10_unknown_symbols
#print axioms LE.C10_unknown_keys
