import LicenseExpr.Props.C11
#print axioms LE.ltok_strict_lax
#print axioms LE.parse_strict_lax
#print axioms LE.parse_novalidate_unknown
#print axioms LE.C11_parse_validate
#print axioms LE.C11_agree
