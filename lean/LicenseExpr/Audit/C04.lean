import LicenseExpr.Props.C04
#print axioms LE.mem_tails
#print axioms LE.C04_recognised
#print axioms LE.C04_whole_words
#print axioms LE.C04_operator_whole_word
#print axioms LE.C04_longest
#print axioms LE.ownedW_spec
#print axioms LE.C04_alone
#print axioms LE.C04_alone_validates
#print axioms LE.C04_in_context
#print axioms LE.C04_in_context_proviso
