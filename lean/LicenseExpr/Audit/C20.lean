import LicenseExpr.Props.C20
#print axioms LE.C20_safe
#print axioms LE.C20_published_complete
