import LicenseExpr.Props.C18
#print axioms LE.C18_single_word_matches_partial
#print axioms LE.C18_simple_tokens_partial
