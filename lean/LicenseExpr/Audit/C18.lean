import LicenseExpr.Props.C18
#print axioms LE.C18_single_word_matches_partial
#print axioms LE.C18_simple_tokens_partial
#print axioms LE.C18_tokens
#print axioms LE.C18_agree
#print axioms LE.asciiCls_ok
#print axioms LE.noAdj_of_B
