import LicenseExpr.Props.C08
#print axioms LE.C08_refl
#print axioms LE.C08_symm
#print axioms LE.C08_sound
#print axioms LE.C08_instance
#print axioms LE.C08_contains_refl
#print axioms LE.C08_with_parts
#print axioms LE.C08_contains_atoms_partial
