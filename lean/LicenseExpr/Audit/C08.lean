import LicenseExpr.Props.C08
#print axioms LE.C08_refl
#print axioms LE.C08_symm
#print axioms LE.C08_sound
#print axioms LE.C08_rewrite
#print axioms LE.C08_trans
#print axioms LE.C08_instance
#print axioms LE.C08_contains_refl
#print axioms LE.containsE_congr
#print axioms LE.C08_contains_congr
#print axioms LE.C08_contains_rewrite
#print axioms LE.C08_with_parts
#print axioms LE.C08_contains_atoms
#print axioms LE.C08_contains_atoms_partial
#print axioms LE.C08_strings
#print axioms LE.C08_strings_spelling
#print axioms LE.C08_strings_refl
#print axioms LE.C08_strings_symm
