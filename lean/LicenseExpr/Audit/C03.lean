import LicenseExpr.Props.C03
#print axioms LE.C03_no_crash_tokens
#print axioms LE.C03_no_crash
#print axioms LE.C03_error_token
