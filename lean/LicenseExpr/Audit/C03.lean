import LicenseExpr.Props.C03
#print axioms LE.C03_no_crash_tokens
#print axioms LE.C03_no_crash
#print axioms LE.C03_error_token
#print axioms LE.C03_reject_tokens
#print axioms LE.C03_reject_with
#print axioms LE.C03_reject
#print axioms LE.C03_bad_pair_rejected
#print axioms LE.C03_unbalanced_rejected
#print axioms LE.C03_position
