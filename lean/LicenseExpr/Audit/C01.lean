import LicenseExpr.Props.C01
#print axioms LE.C01_lexer_lossless
#print axioms LE.C01_simple
#print axioms LE.C01_default_partial
#print axioms LE.advanced_tiles
#print axioms LE.C01_default
#print axioms LE.C01_tokens
#print axioms LE.tokLits_ptoks
#print axioms LE.C01_literals
