import LicenseExpr.Props.C02
#print axioms LE.C02_tree
#print axioms LE.C02_parse
#print axioms LE.C02_unknown
#print axioms LE.C02_unknown_extend
#print axioms LE.C02_text
