import LicenseExpr.Props.C13
#print axioms LE.C13_eq_plain
#print axioms LE.C13_eq_with
#print axioms LE.C13_plain_ne_with
#print axioms LE.C13_eq_equiv
#print axioms LE.C13_hash
#print axioms LE.C13_lt_trichotomy
#print axioms LE.C13_lt_is_string_order
#print axioms LE.C13_lt_strict
#print axioms LE.C13_normKey_sound
#print axioms LE.C13_normKey_complete
#print axioms LE.C13_normKey_idem
