import LicenseExpr.Props.C14
#print axioms LE.C14_iff
#print axioms LE.nodupB_iff
#print axioms LE.C14_perm
#print axioms LE.C14_alias_is_key
