import LicenseExpr.Props.C16
#print axioms LE.C16_map_write
#print axioms LE.C16_map_ignore
#print axioms LE.C16_get
#print axioms LE.C16_exists
#print axioms LE.C16_read_after_write
#print axioms LE.C16_items
#print axioms LE.C16_frozen
#print axioms LE.C16_fail
#print axioms LE.C16_iter
#print axioms LE.C16_reachable_known
