import LicenseExpr.Props.C09
#print axioms LE.C09_struct
#print axioms LE.C09_order
#print axioms LE.C09_alternatives
#print axioms LE.C09_truth
#print axioms LE.C09_idem_ref
#print axioms LE.C09_idem
#print axioms LE.C09_faithful_preserved
#print axioms LE.C09_combine_sole
#print axioms LE.C09_combine_keep_all
#print axioms LE.C09_combine_unique
