import LicenseExpr.Props.C15
#print axioms LE.C15_scancode_filter
#print axioms LE.C15_spdx_filter
#print axioms LE.C15_deprecated_unknown
#print axioms LE.C15_spdx_unknown
#print axioms LE.C15_indexOK_builds
#print axioms LE.C15_general
#print axioms LE.C15_general_validates
