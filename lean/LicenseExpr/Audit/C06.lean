import LicenseExpr.Props.C06
#print axioms LE.C06_truth_any_order
#print axioms LE.C06_truth
#print axioms LE.C06_atoms
