import LicenseExpr.Props.C19
#print axioms LE.tokenizer_spec
#print axioms LE.winv_set
#print axioms LE.step_inv
#print axioms LE.run_inv
#print axioms LE.step_table
#print axioms LE.C19_parse
#print axioms LE.C19_validate
#print axioms LE.C19_reachable
