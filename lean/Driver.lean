import LicenseExpr.Model.Sexp
import LicenseExpr.Model.Api
import LicenseExpr.Model.Spec
import LicenseExpr.Model.Sched
import LicenseExpr.Model.World
import LicenseExpr.Lemmas.Spelled
/-!
# Driver — line protocol over the executable model (one request per line, one reply per line)
-/
open LE

structure DState where
  cls : Cls
  /-- the automaton of the last table seen (a pure cache: `buildTrie` of that table) -/
  cache : Option (String × Trie TVal) := none

def defaultCls : Cls := ⟨fun _ => false, fun _ => false, fun x => [x]⟩

/-- `((cp isspace iskey (lower…)) …)`; code points below 1024 are looked up in an array -/
def mkCls (rows : List SX) : Cls :=
  let tbl : List (Nat × Bool × Bool × List Nat) := rows.map (fun r =>
    match r.getList with
    | [cp, sp, k, lo] => (cp.getNum, sp.getBool, k.getBool, lo.getList.map SX.getNum)
    | _ => (0, false, false, [0]))
  let small : Array (Option (Bool × Bool × List Nat)) :=
    tbl.foldl (fun a r => if r.1 < 1024 then a.set! r.1 (some r.2) else a) (Array.replicate 1024 none)
  let big := tbl.filter (fun r => r.1 ≥ 1024)
  let find (x : Nat) : Option (Bool × Bool × List Nat) :=
    if x < 1024 then small[x]! else (big.find? (fun r => r.1 == x)).map (·.2)
  ⟨fun x => match find x with | some r => r.1 | none => false,
   fun x => match find x with | some r => r.2.1 | none => false,
   fun x => match find x with | some r => r.2.2 | none => [x]⟩

/-! ### decoders -/
def decEntry (x : SX) : Entry :=
  match x.getList with
  | [k, al, e] => ⟨k.getStr, al.getList.map SX.getStr, e.getBool⟩
  | _ => ⟨[], [], false⟩

def decTable (x : SX) : Table := x.getList.map decEntry

def decAtom (x : SX) : Atom :=
  match x.getList with
  | [.tag "sym", k, e] => .lic ⟨k.getStr, e.getBool⟩
  | [.tag "with", k1, e1, k2, e2] => .withE ⟨k1.getStr, e1.getBool⟩ ⟨k2.getStr, e2.getBool⟩
  | _ => .lic ⟨[], false⟩

partial def decTree (x : SX) : Expr Atom :=
  match x.getList with
  | .tag "and" :: rest => .node .and (rest.map decTree)
  | .tag "or" :: rest => .node .or (rest.map decTree)
  | _ => .atom (decAtom x)

def decPTok (x : SX) : PTok :=
  match x.getList with
  | [.tag "sym", k, e, s, p] => ⟨.sym (.lic ⟨k.getStr, e.getBool⟩), s.getStr, p.getNum⟩
  | [.tag "with", k1, e1, k2, e2, s, p] => ⟨.sym (.withE ⟨k1.getStr, e1.getBool⟩ ⟨k2.getStr, e2.getBool⟩), s.getStr, p.getNum⟩
  | [.tag "and", s, p] => ⟨.and, s.getStr, p.getNum⟩
  | [.tag "or", s, p] => ⟨.or, s.getStr, p.getNum⟩
  | [.tag "lpar", s, p] => ⟨.lpar, s.getStr, p.getNum⟩
  | [.tag "rpar", s, p] => ⟨.rpar, s.getStr, p.getNum⟩
  | _ => ⟨.and, [], 0⟩

def decSVal (x : SX) : SVal :=
  match x with
  | .tag "none" => .none
  | .tag "and" => .kw .and | .tag "or" => .kw .or | .tag "with" => .kw .with
  | .tag "lpar" => .kw .lpar | .tag "rpar" => .kw .rpar
  | _ => match x.getList with
    | [.tag "sym", k, e] => .sym ⟨k.getStr, e.getBool⟩
    | [.tag "withsym", k1, e1, k2, e2] => .withSym ⟨k1.getStr, e1.getBool⟩ ⟨k2.getStr, e2.getBool⟩
    | _ => .none

def decSTok (x : SX) : STok :=
  match x.getList with
  | [s, e, str, v] => ⟨s.getNum, e.getNum, str.getStr, decSVal v⟩
  | _ => ⟨0, 0, [], .none⟩

/-! ### encoders -/
def encSym (a : Sym) : List SX := [.str a.key, SX.ofBool a.exc]
def encAtom : Atom → SX
  | .lic a => .list (.tag "sym" :: encSym a)
  | .withE l e => .list (.tag "with" :: encSym l ++ encSym e)

partial def encTree : Expr Atom → SX
  | .atom a => encAtom a
  | .node .and args => .list (.tag "and" :: args.map encTree)
  | .node .or args => .list (.tag "or" :: args.map encTree)

def encPTok (p : PTok) : SX :=
  match p.t with
  | .sym (.lic a) => .list ([.tag "sym"] ++ encSym a ++ [.str p.str, .num p.pos])
  | .sym (.withE l e) => .list ([.tag "with"] ++ encSym l ++ encSym e ++ [.str p.str, .num p.pos])
  | .and => .list [.tag "and", .str p.str, .num p.pos]
  | .or => .list [.tag "or", .str p.str, .num p.pos]
  | .lpar => .list [.tag "lpar", .str p.str, .num p.pos]
  | .rpar => .list [.tag "rpar", .str p.str, .num p.pos]

def encSVal : SVal → SX
  | .none => .tag "none"
  | .kw .and => .tag "and" | .kw .or => .tag "or" | .kw .with => .tag "with"
  | .kw .lpar => .tag "lpar" | .kw .rpar => .tag "rpar"
  | .sym a => .list (.tag "sym" :: encSym a)
  | .withSym l e => .list (.tag "withsym" :: encSym l ++ encSym e)

def encSTok (t : STok) : SX := .list [.num t.s, .num t.e, .str t.str, encSVal t.val]

def encLErr : LErr → SX
  | .expr => .list [.tag "exprerr"]
  | .parse c s p => .list [.tag "parseerr", .num c, .str s, SX.ofInt p]

def encOutcome : Outcome → SX
  | .blank => .tag "blank"
  | .ok e => .list [.tag "ok", encTree e]
  | .exprErr none => .list [.tag "exprerr"]
  | .exprErr (some ks) => .list (.tag "exprerr" :: .tag "unknown" :: ks.map SX.str)
  | .parseErr c s p => .list [.tag "parseerr", .num c, .str s, SX.ofInt p]
  | .crash k => .list [.tag "crash", .num k]

def encOptStr : Option Str → SX
  | none => .tag "none"
  | some s => .str s

def encVOutcome : VOutcome → SX
  | .info i => .list [.tag "info", encOptStr i.normalized, .num i.nerrors, .list (i.invalid.map SX.str)]
  | .crash k => .list [.tag "crash", .num k]

def encTok (t : Tok Nat) : SX :=
  .list [.num t.s, .num t.e, .str t.str, match t.val with | none => .tag "none" | some v => .num v]

def encTVal : TVal → SX
  | .kw k => encSVal (.kw k)
  | .sym a => .list (.tag "sym" :: encSym a)

def encTokT (t : Tok TVal) : SX :=
  .list [.num t.s, .num t.e, .str t.str, match t.val with | none => .tag "none" | some v => encTVal v]

def encPath (p : List Word) : SX := .list (p.map SX.str)

/-! ### trie op sequences (C16) -/
def allNodes (N : List (List Word)) : List (List Word) :=
  let ps := N.flatMap (fun n => (List.range (n.length + 1)).map (fun k => n.take k))
  ps.foldl (fun acc p => if acc.contains p then acc else acc ++ [p]) []

def trieOps (c : Cls) : Trie Nat → List SX → List SX → List SX
  | _, [], out => out.reverse
  | t, op :: ops, out =>
    match op.getList with
    | [.tag "add", name, val] =>
      (match t.add c name.getStr val.getNum with
       | .ok t' => trieOps c t' ops (.tag "ok" :: out)
       | .refused => trieOps c t ops (.tag "refused" :: out))
    | [.tag "get", name] =>
      let r := match t.get c name.getStr with
        | some (n, v) => SX.list [.tag "some", .str n, .num v]
        | none => .tag "none"
      trieOps c t ops (r :: out)
    | [.tag "exists", name] => trieOps c t ops (SX.ofBool (t.exists_ c name.getStr) :: out)
    | [.tag "prefix", name] => trieOps c t ops (SX.ofBool (t.isPrefix c name.getStr) :: out)
    | [.tag "items"] => trieOps c t ops (.list (t.items.map (fun (n, v) => SX.list [.str n, .num v])) :: out)
    | [.tag "make"] => trieOps c t.makeAutomaton ops (.tag "ok" :: out)
    | [.tag "iter", text, unm] =>
      trieOps c t ops (.list ((t.iter c text.getStr unm.getBool).map encTok) :: out)
    | [.tag "iterspec", text] =>
      trieOps c t ops (.list ((iterSpec c t text.getStr).map encTok) :: out)
    | [.tag "tokenize", text] =>
      trieOps c t ops (.list ((t.tokenize c text.getStr).map encTok) :: out)
    | [.tag "fail"] =>
      let N := t.names
      let d := maxDepth N
      trieOps c t ops (.list ((allNodes N).map (fun p => SX.list [encPath p, encPath (failN N d p)])) :: out)
    | _ => trieOps c t ops (.tag "badop" :: out)

def decTokI (x : SX) : Tok Nat :=
  match x.getList with
  | [s, e, id] => ⟨s.getNum, e.getNum, [], some id.getNum⟩
  | _ => ⟨0, 0, [], none⟩

def decTokFull (x : SX) : Tok Nat :=
  match x.getList with
  | [s, e, str, .tag "none"] => ⟨s.getNum, e.getNum, str.getStr, none⟩
  | [s, e, str, v] => ⟨s.getNum, e.getNum, str.getStr, some v.getNum⟩
  | _ => ⟨0, 0, [], none⟩

def decOp (x : SX) : Op := if x.getTag == "or" then .or else .and

def encAtoms (l : List Atom) : SX := .list (l.map encAtom)
def encStrs (l : List Str) : SX := .list (l.map SX.str)

def decIndexRec (x : SX) : IndexRec :=
  match x.getList with
  | [k, sk, other, e, d] => ⟨k.getStr, sk.getStr, other.getList.map SX.getStr, e.getBool, d.getBool⟩
  | _ => ⟨[], [], [], false, false⟩

def encEntries (T : Table) : SX :=
  .list (T.map (fun e => SX.list [.str e.key, .list (e.aliases.map SX.str), SX.ofBool e.exc]))

def encSpec : Option String → SX
  | none => .num 1
  | some clause => .list [.num 0, .tag clause]

def encPC : SC.PC → SX
  | .start => .tag "start"
  | .alloc => .tag "alloc"
  | .adding r => .list [.tag "adding", .num r]
  | .making r => .list [.tag "making", .num r]
  | .publish r => .list [.tag "publish", .num r]
  | .use r => .list [.tag "use", .num r]
  | .done b => .list [.tag "done", .num b.added, SX.ofBool b.converted]

def cachedTrie (st : DState) (table : SX) : DState × Trie TVal :=
  let k := table.toStr
  match st.cache with
  | some (k', tr) => if k == k' then (st, tr) else
      let tr := buildTrie st.cls (decTable table)
      ({ st with cache := some (k, tr) }, tr)
  | none =>
      let tr := buildTrie st.cls (decTable table)
      ({ st with cache := some (k, tr) }, tr)

/-- `(construct table)`, `(parse i simple strict validate text)`, `(validate i strict text)` -/
def decCall (x : SX) : Option Call :=
  match x.getList with
  | [.tag "construct", t] => some (.construct (decTable t))
  | [.tag "parse", i, s, st, v, text] => some (.parse i.getNum s.getBool st.getBool v.getBool text.getStr)
  | [.tag "validate", i, st, text] => some (.validate i.getNum st.getBool text.getStr)
  | _ => none

def encAnswer : Answer → SX
  | .unit => .tag "unit"
  | .noInstance => .tag "noinstance"
  | .parsed o => encOutcome o
  | .validated v => encVOutcome v

def worldRun (c : Cls) : World → List SX → List SX → List SX
  | _, [], out => out.reverse
  | w, k :: ks, out =>
    match decCall k with
    | none => worldRun c w ks (.tag "badcall" :: out)
    | some call =>
      let (w', a) := step c w call
      worldRun c w' ks (encAnswer a :: out)

def handle (st : DState) (op : String) (args : List SX) : DState × SX :=
  let c := st.cls
  match op, args with
  | "echo", [x] => (st, x)
  | "cls", [rows] => ({ st with cls := mkCls rows.getList, cache := none }, .tag "ok")
  | "clsok", [rows] =>
    -- the five clauses of `ClsOK` on the character classes in use: the keyword clause by computation, the clause on
    -- every word character over the rows of the table (a character outside the table is a caseless word character that
    -- is no parenthesis, for which the clause holds), the three clauses on single characters directly
    let cps := rows.getList.map (fun r => match r.getList with | cp :: _ => cp.getNum | _ => 0)
    (st, .list [
      SX.ofBool (KEYWORDS.all (fun k => wordsOf c k.spelling == [k.spelling])),
      SX.ofBool (cps.all (fun x => kindOf c x != .word || (!(c.lower x).contains LPAR && !(c.lower x).contains RPAR))),
      SX.ofBool (!c.isSpace LPAR && !c.isSpace RPAR),
      SX.ofBool (c.isSpace SPACE),
      SX.ofBool ([65, 78, 68, 79, 82, 87, 73, 84, 72].all (fun x => kindOf c x == .word && c.lower x == [x + 32]))])
  | "lex", [text] =>
    (st, .list ((pieces c text.getStr).map (fun p => SX.list [.num p.start, .tag (match p.kind with | .word => "word" | .blank => "blank" | .lpar => "lpar" | .rpar => "rpar"), .str p.text])))
  | "words", [text] => (st, encStrs (wordsOf c text.getStr))
  | "trie", [ops] => (st, .list (trieOps c Trie.empty ops.getList []))
  | "select", [toks] => (st, .list ((filterOverlapping (toks.getList.map decTokI)).map (fun t => SX.num (t.val.getD 0))))
  | "ltrie", [table, text] => (st, .list (((buildTrie c (decTable table)).tokenize c text.getStr).map encTokT))
  | "ltrieitems", [table] => (st, .list ((buildTrie c (decTable table)).entries.map (fun e => SX.list [.list (e.words.map SX.str), encTVal e.val])))
  | "merge", [toks] =>
    (st, match mergeUnknown c none (toks.getList.map decSTok) with
      | .ok r => .list [.tag "ok", .list (r.map encSTok)]
      | .error e => encLErr e)
  | "group", [strict, toks] =>
    (st, match groupWith c strict.getBool (toks.getList.map decSTok) with
      | .ok r => .list [.tag "ok", .list (r.map encSTok)]
      | .error e => encLErr e)
  | "ltok", [table, simple, strict, text] =>
    let (st, tr) := cachedTrie st table
    (st, match ltokW c (decTable table) tr simple.getBool strict.getBool text.getStr with
      | .ok r => .list [.tag "ok", .list (r.map encPTok)]
      | .error e => encLErr e)
  | "bparse", [toks] =>
    let ts := toks.getList.map decPTok
    (st, match BP.parseAt (ts.map (·.t)) with
      | .ok e => encOutcome (.ok e)
      | .error (e, idx) => encOutcome (ofPErr ts e idx))
  | "parse", [table, simple, strict, validate, text] =>
    let (st, tr) := cachedTrie st table
    (st, encOutcome (parseFullW c (decTable table) tr simple.getBool strict.getBool validate.getBool text.getStr))
  | "validate", [table, strict, text] =>
    let (st, tr) := cachedTrie st table
    (st, encVOutcome (validateFullW c (decTable table) tr strict.getBool text.getStr))
  | "render", [t] => (st, .str (renderStr (decTree t)))
  | "readable", [t] => (st, .str (renderReadable (fun a => a.key) (decTree t)))
  | "rendert", [pre, post, t] => (st, .str (renderT (fun a => pre.getStr ++ a.key ++ post.getStr) (decTree t)))
  | "rendertf", [pre, post, excs, t] =>    -- a template that shows the key of exceptions only (and nothing for the others), or of the others only
    let showExc := excs.getTag == "exc"
    (st, .str (renderT (fun a => if a.exc == showExc then pre.getStr ++ a.key ++ post.getStr else []) (decTree t)))
  | "readablet", [pre, post, t] => (st, .str (renderReadable (fun a => pre.getStr ++ a.key ++ post.getStr) (decTree t)))
  | "simplify", [t] => (st, encTree (simplifyE (decTree t)))
  | "dedup", [t] => (st, encTree (dedupE (decTree t)))
  | "dedupref", [t] => (st, encTree (dedupRef (decTree t)))
  | "combine", [op, uniq, ts] =>
    (st, match combineCore (decOp op) uniq.getBool (ts.getList.map decTree) with
      | some e => encTree e
      | none => .tag "none")
  | "equivtext", [table, a, b] =>
    (st, match equivText c (decTable table) a.getStr b.getStr with | some r => SX.ofBool r | none => .tag "raises")
  | "containstext", [table, a, b] =>
    (st, match containsText c (decTable table) a.getStr b.getStr with | some r => SX.ofBool r | none => .tag "raises")
  | "equiv", [a, b] => (st, SX.ofBool (equivE (decTree a) (decTree b)))
  | "contains", [a, b] => (st, SX.ofBool (containsTop (decTree a) (decTree b)))
  | "symbols", [t, uniq, dec] => (st, encAtoms (licenseSymbols (decTree t) uniq.getBool dec.getBool))
  | "keys", [t, uniq] => (st, encStrs (licenseKeys (decTree t) uniq.getBool))
  | "unknownsyms", [known, t, uniq] => (st, encAtoms (unknownSymbols (known.getList.map SX.getStr) (decTree t) uniq.getBool))
  | "unknownkeys", [known, t, uniq] => (st, encStrs (unknownKeys (known.getList.map SX.getStr) (decTree t) uniq.getBool))
  | "primary", [t, dec] => (st, match primarySymbol (decTree t) dec.getBool with | some a => encAtom a | none => .tag "none")
  | "primarykey", [t] => (st, encOptStr (primaryKey (decTree t)))
  | "literals", [t] => (st, encAtoms (literals (decTree t)))
  | "ttable", [t, atoms] => (st, encStrs [truthTable (atoms.getList.map decAtom) (decTree t)])
  | "normkey", [raw] => (st, match normKey c raw.getStr with | some k => .list [.tag "ok", .str k] | none => .tag "err")
  | "table", [table] => (st, SX.ofBool (tableRefused c (decTable table)))
  | "ambiguous", [table] => (st, SX.ofBool (ambiguousB c (decTable table)))
  | "index", [kind, recs] =>
    let idx := recs.getList.map decIndexRec
    let ents := if kind.getTag == "spdx" then spdxEntries idx else scancodeEntries idx
    (st, match toTable c ents with
      | some T => .list [.tag "ok", SX.ofBool (tableRefused c T), encEntries T]
      | none => .tag "keyerr")
  | "indexok", [table] => (st, SX.ofBool (indexOK c (decTable table)))
  | "namesunique", [table] => (st, SX.ofBool (namesUniqueB c (decTable table)))
  | "premises", [table] =>      -- the table premises of C04_in_context / C02_text: OpWordFree, KwOwned, names unique
    let T := decTable table
    (st, .list [SX.ofBool (opWordFreeB c T), SX.ofBool (kwOwnedB c T), SX.ofBool (namesUniqueB c T)])
  | "symrel", [a, b] =>
    let x := decAtom a; let y := decAtom b
    (st, .list [SX.ofBool (x == y), SX.ofBool (x.lt y), SX.ofBool (y.lt x), SX.ofBool (x.containsA y)])
  | "lt", [a, b] => (st, SX.ofBool (ltE ltAtom (decTree a) (decTree b)))
  | "eqe", [a, b] => (st, SX.ofBool (eqE (decTree a) (decTree b)))
  | "nf", [t] => (st, SX.ofBool (nfB (ltE ltAtom) (decTree t)))
  -- Spec relations evaluated on the implementation's own outputs
  | "spec_c01", [table, simple, text, toks, tree] =>
    (st, encSpec (specC01 c (decTable table) simple.getBool text.getStr (toks.getList.map decPTok)
      (match tree with | .tag "none" => none | t => some (decTree t))))
  | "spec_c17", [names, text, toks] =>
    let t := (names.getList.foldl (fun (t : Trie Nat) nv => match nv.getList with
      | [n, v] => t.addD c n.getStr v.getNum | _ => t) Trie.empty).makeAutomaton
    (st, encSpec (specC17 c text.getStr (iterSpec c t text.getStr) (toks.getList.map decTokFull)))
  | "world", [tables, calls] =>
    (st, .list (worldRun c (tables.getList.map (fun t => ⟨decTable t, none⟩)) calls.getList []))
  | "sched", [proto, n, threads, sched] =>
    let s := if proto.getTag == "old" then SC.runOld n.getNum (sched.getList.map SX.getNum) else SC.run n.getNum (sched.getList.map SX.getNum)
    (st, .list ((List.range threads.getNum).map (fun i => encPC (s.pc i))))
  | _, _ => (st, .list [.tag "badrequest", .tag op])

partial def loop (h : IO.FS.Stream) (out : IO.FS.Stream) (st : DState) : IO Unit := do
  let line ← h.getLine
  if line.isEmpty then
    out.flush
    return ()
  let trimmed := line.trimAscii.toString
  if trimmed.isEmpty then
    loop h out st
  else if trimmed == "flush" then
    out.flush
    loop h out st
  else
    match SX.parseLine trimmed with
    | id :: .tag op :: args =>
      let (st', r) := handle st op args
      out.putStrLn (id.toStr ++ "\t" ++ r.toStr)
      loop h out st'
    | _ =>
      out.putStrLn "0\t(badline)"
      loop h out st

def main : IO Unit := do
  let stdin ← IO.getStdin
  let stdout ← IO.getStdout
  loop stdin stdout { cls := defaultCls }
