#!/venv/bin/python
"""Record in seeded/<id>/meta.json what the change needs to show up and what the last run_seeded.py run reported.
usage: seed_meta.py <seed-id> "<needs_to_manifest>" """
import json, sys
sid, needs = sys.argv[1], sys.argv[2]
p = '/verif/seeded/%s/meta.json' % sid
m = json.load(open(p))
m['needs_to_manifest'] = needs
r = json.load(open('/tmp/run_seeded.json')).get(sid, {})
m['detected_by'] = {c: ('quick: ' + (v['line'][0] if v['line'] else 'rc=%d' % v['rc'])) for c, v in r.items()}
json.dump(m, open(p, 'w'), indent=1)
print(m['detected_by'])
