#!/venv/bin/python
"""Verify an equivalent rewrite delivered in a scratch worktree and store it under /verif/seeded/<dir>/<id>/.
usage: verify_refactor.py <worktree> <property id> <dir under seeded/>
Checks, in the worktree: patch.diff touches only src/ and is what is applied; the 187 tests pass with it; demo.py prints
the same digest with the change and after `git apply -R patch.diff`. Then copies patch.diff, demo.py, notes.md."""
import os, re, shutil, subprocess, sys
wt, pid, sub = sys.argv[1], sys.argv[2], sys.argv[3]
env = dict(os.environ, PYTHONPATH=os.path.join(wt, 'src'), PYTHONHASHSEED='0')
def run(cmd, **kw):
    return subprocess.run(cmd, cwd=wt, env=env, capture_output=True, text=True, **kw)
patch = open(os.path.join(wt, 'patch.diff')).read()
files = re.findall(r'^diff --git a/(\S+)', patch, flags=re.M)
assert files and all(f.startswith('src/') for f in files), files
assert run(['git', 'apply', '-R', '--check', 'patch.diff']).returncode == 0, 'patch.diff is not what is applied'
d1 = run(['/venv/bin/python', 'demo.py'], timeout=1800)
t = run(['/venv/bin/python', '-m', 'pytest', '-q', '-p', 'no:cacheprovider', '--ignore=demo.py'], timeout=1800)
tests = (re.findall(r'\d+ passed[^\n]*', t.stdout) or ['?'])[-1]
run(['git', 'apply', '-R', 'patch.diff'])
d0 = run(['/venv/bin/python', 'demo.py'], timeout=1800)
run(['git', 'apply', 'patch.diff'])
changed = len([l for l in patch.split('\n') if re.match(r'^[+-][^+-]', l)])
ok = d1.returncode == 0 and d0.returncode == 0 and d1.stdout.strip() == d0.stdout.strip() and d1.stdout.strip() and tests.startswith('187 passed') and 'failed' not in tests
print(pid, 'digest with %s / without %s, tests: %s, %d changed lines -> %s' % (d1.stdout.strip()[-16:], d0.stdout.strip()[-16:], tests, changed, 'OK' if ok else 'REJECT'))
if not ok:
    print(d1.stderr[-400:], d0.stderr[-400:], t.stdout[-400:]); sys.exit(1)
dst = os.path.join('/verif/seeded', sub, pid)
os.makedirs(dst, exist_ok=True)
for f in ['patch.diff', 'demo.py', 'notes.md']:
    shutil.copy(os.path.join(wt, f), os.path.join(dst, f))
