#!/venv/bin/python
"""Verify a seeded change delivered in a scratch worktree and store it under /verif/seeded/<id><suffix>/.
usage: verify_seed.py <worktree> <property id> <suffix> <round>
Checks, in the worktree: patch.diff touches only src/ and equals the working-tree diff; demo.py exits 1 with the
change; the 187 tests pass with the change; after `git apply -R patch.diff` demo.py exits 0. Then copies
patch.diff, demo.py, notes.md and writes meta.json (needs_to_manifest is filled in by hand afterwards)."""
import json, os, re, shutil, subprocess, sys
wt, pid, suf, rnd = sys.argv[1], sys.argv[2], sys.argv[3], int(sys.argv[4])
env = dict(os.environ, PYTHONPATH=os.path.join(wt, 'src'))
def run(cmd, **kw):
    return subprocess.run(cmd, cwd=wt, env=env, capture_output=True, text=True, **kw)
patch = open(os.path.join(wt, 'patch.diff')).read()
files = re.findall(r'^diff --git a/(\S+)', patch, flags=re.M)
assert files and all(f.startswith('src/') for f in files), files
cur = run(['git', 'diff', '--', 'src']).stdout
assert cur.strip() == patch.strip() or run(['git', 'apply', '-R', '--check', 'patch.diff']).returncode == 0, 'patch.diff is not what is applied'
d1 = run(['/venv/bin/python', 'demo.py'], timeout=900)
t = run(['/venv/bin/python', '-m', 'pytest', '-q', '-p', 'no:cacheprovider', '--ignore=demo.py'], timeout=1800)
tests = (re.findall(r'\d+ passed[^\n]*', t.stdout) or ['?'])[-1]
run(['git', 'apply', '-R', 'patch.diff'])
d0 = run(['/venv/bin/python', 'demo.py'], timeout=900)
run(['git', 'apply', 'patch.diff'])
ok = d1.returncode == 1 and d0.returncode == 0 and tests.startswith('187 passed') and 'failed' not in tests
print(pid + suf, 'demo with patch rc=%d, without rc=%d, tests: %s -> %s' % (d1.returncode, d0.returncode, tests, 'OK' if ok else 'REJECT'))
if not ok:
    print(d1.stdout[-500:], d0.stdout[-500:], t.stdout[-500:]); sys.exit(1)
dst = os.path.join('/verif/seeded', pid + suf)
os.makedirs(dst, exist_ok=True)
for f in ['patch.diff', 'demo.py', 'notes.md']:
    shutil.copy(os.path.join(wt, f), os.path.join(dst, f))
notes = open(os.path.join(wt, 'notes.md')).read()
json.dump({'property': pid, 'round': rnd,
           'origin': 'written by an independent sub-agent that saw only the property text, a scratch worktree of /repo and one sentence each on what the earlier seeded changes need (to avoid repeating them)',
           'needs_to_manifest': '',
           'verified': {'how': 'in the scratch worktree: demo.py with the change, the 187-test suite with the change, git apply -R patch.diff, demo.py again',
                        'demo_exit_unchanged': 0, 'demo_exit_with_patch': 1, 'tests_with_patch': tests},
           'detected_by': {}}, open(os.path.join(dst, 'meta.json'), 'w'), indent=1)
