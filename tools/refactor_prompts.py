#!/venv/bin/python
"""Prepare a round of equivalent rewrites: one scratch worktree of /repo per property under /tmp and one prompt per property
under /tmp/refprompts (property text only; nothing else from /verif).
usage: refactor_prompts.py <suffix>"""
import json, os, subprocess, sys
suf = sys.argv[1]
os.makedirs('/tmp/refprompts', exist_ok=True)
for p in [json.loads(l) for l in open('/verif/properties.jsonl')]:
    pid = p['id']
    wt = '/tmp/wr_%s%s' % (pid, suf)
    subprocess.run(['git', '-C', '/repo', 'worktree', 'add', '--detach', '-f', wt, 'HEAD'], capture_output=True)
    text = {k: p[k] for k in ('id', 'title', 'statement', 'anchors') if k in p}
    open('/tmp/refprompts/%s.txt' % pid, 'w').write(f"""You are preparing a behaviour-preserving refactoring of a Python library, to find out whether a verification tool raises false alarms on harmless rewrites.

Your scratch git worktree of the library (nexB/license-expression, pure Python, depends on boolean.py which is installed in /venv) is at: {wt}
Work ONLY inside that directory. Do not read or touch /repo or /verif or any other directory (except /venv/lib/python3.12/site-packages/boolean for reading boolean.py).

A property (id {pid}) that users rely on:

---
{json.dumps(text, indent=1, ensure_ascii=False)}
---

Task: rewrite the code under {wt}/src/license_expression/ that this property depends on (see the anchors) WITHOUT changing any observable behaviour of the public API: same results, same exception types, error codes, token strings and positions, same rendering, same object identity where callers can see it, same behaviour under threads. Make it a substantial, realistic refactoring of 60-200 changed lines in the style of a real maintenance commit. Use several of: loops rewritten as comprehensions or the other way round, helper functions or methods extracted or inlined, local variables renamed, conditions restructured (De Morgan, early returns, guard clauses), data structures swapped for equivalent ones (deque vs index, dict vs list of pairs, generators vs lists), independent statements reordered, string building changed (f-strings / join / format), caching of values that are provably constant, modern syntax. Internal (underscore-prefixed or undocumented) helper names may change; public names, signatures and defaults may not.

Requirements:
  1. the whole existing test suite still passes:  cd {wt} && PYTHONPATH={wt}/src /venv/bin/python -m pytest -q -p no:cacheprovider   (must report 187 passed)
  2. demo.py: a differential script run as `PYTHONPATH={wt}/src /venv/bin/python demo.py` that exercises the rewritten code on a few thousand varied inputs (seeded random, include odd cases: unusual whitespace, non-ASCII letters, nested parentheses, invalid input, large tables, repeated calls on one object) and prints ONE line: a sha256 digest of the repr of all results (exception type and attributes included). The digest must be identical with and without your change (check with `git apply -R patch.diff` / `git apply patch.diff`). Put its body under `if __name__ == '__main__':` (pytest collects every .py file here).
  3. Be careful to really preserve behaviour: re-read your diff looking for changed evaluation order of side effects, changed exception types for odd inputs, changed results for empty inputs, changed identity of returned objects.

Deliver, in {wt}: patch.diff (output of `git diff -- src`), demo.py, notes.md (what was rewritten, 5-10 lines). Leave the change applied. Final answer: one short paragraph.
""")
print('prepared')
