#!/venv/bin/python
"""Seeded-change matrix: apply every seeded change to a scratch copy of the repository and run every check on it.
usage (inside a snapshot of /verif): matrix.py <scratch repo root> [seed ids...]
Writes seeded/MATRIX.json next to this checkout: {seed: {check: 'violation' | 'unproved' | 'pass' | 'error'}}."""
import json
import os
import subprocess
import sys
import tempfile

HERE = os.path.dirname(os.path.dirname(os.path.abspath(__file__)))
repo = sys.argv[1]
sub = 'seeded'
rest = sys.argv[2:]
own = False
outname = 'MATRIX.json'
only = None
while rest and rest[0].startswith('--'):
    if rest[0].startswith('--dir='):
        sub = rest[0][6:]
    elif rest[0].startswith('--checks='):      # only these checks (columns)
        only = rest[0][9:].split(',')
    elif rest[0] == '--own':        # only the check of the seeded change's own property
        own = True
        outname = 'OWN.json'
    rest = rest[1:]
seeds = rest or sorted(d for d in os.listdir(os.path.join(HERE, sub)) if os.path.isfile(os.path.join(HERE, sub, d, 'patch.diff')))
checks = ['C%02d' % i for i in range(1, 21)]
if only:
    checks = only
    outname = 'MATRIX-%s.json' % '-'.join(only)
tmp = tempfile.mkdtemp(prefix='matrix-')
env = dict(os.environ, VERIF_REPO=repo, VERIF_EVIDENCE_DIR=os.path.join(tmp, 'evidence'), VERIF_REPLAY_DIR=os.path.join(tmp, 'replays'))
out = {}
for sid in ['(unchanged)'] + seeds:
    subprocess.run(['git', '-C', repo, 'checkout', '--', '.'], check=True)
    if sid != '(unchanged)':
        subprocess.run(['git', '-C', repo, 'apply', os.path.join(HERE, sub, sid, 'patch.diff')], check=True)
    row = {}
    for c in ([sid[:3]] if own and sid != '(unchanged)' else checks):
        p = subprocess.run(['/venv/bin/python', os.path.join(HERE, 'check.py'), c, '--tier', 'quick'], capture_output=True, text=True, cwd=HERE, env=env)
        viol = [l for l in p.stdout.split('\n') if l.startswith('VIOLATION')]
        if p.returncode == 0:
            row[c] = 'pass'
        elif p.returncode == 1 and viol:
            row[c] = 'unproved' if viol[0].endswith('no-failing-input-found') else 'violation'
        else:
            row[c] = 'error rc=%d %s' % (p.returncode, (p.stdout + p.stderr)[-200:])
    out[sid] = row
    print(sid, ' '.join('%s=%s' % (c, {'pass': '.', 'violation': 'V', 'unproved': 'u'}.get(v, 'E')) for c, v in row.items()), flush=True)
    json.dump(out, open(os.path.join(HERE, sub, outname), 'w'), indent=1)
subprocess.run(['git', '-C', repo, 'checkout', '--', '.'], check=True)
