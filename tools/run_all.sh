#!/bin/bash
# run every check of MANIFEST.json at the given tier on the tree as it is; print one line per check
tier=${1:-quick}
cd /verif
for i in $(seq -w 1 20); do
  /usr/bin/time -f "  C$i wall=%es rc=%x" /venv/bin/python check.py C$i --tier $tier 2>&1 | grep -v "^$" | tail -4
done
