#!/venv/bin/python
"""Prepare a round of seeded changes: one scratch worktree of /repo per property under /tmp and one prompt file per
property under /tmp/seedprompts (property text + one sentence per earlier seeded change; nothing else from /verif).
usage: seed_prompts.py <suffix letter>"""
import glob, json, os, subprocess, sys
suf = sys.argv[1]
os.makedirs('/tmp/seedprompts', exist_ok=True)
props = [json.loads(l) for l in open('/verif/properties.jsonl')]
for p in props:
    pid = p['id']
    earlier = []
    for d in sorted(glob.glob('/verif/seeded/%s*/meta.json' % pid)):
        n = json.load(open(d)).get('needs_to_manifest', '')
        if n:
            earlier.append('- ' + n)
    wt = '/tmp/wt_%s%s' % (pid, suf)
    subprocess.run(['git', '-C', '/repo', 'worktree', 'add', '--detach', '-f', wt, 'HEAD'], capture_output=True)
    text = {k: p[k] for k in ('id', 'title', 'statement', 'anchors') if k in p}
    open('/tmp/seedprompts/%s.txt' % pid, 'w').write(f"""You are testing how well a property of a Python library is protected by its test suite.

Your scratch git worktree of the library (nexB/license-expression, pure Python, depends on boolean.py which is installed in /venv) is at: {wt}
Work ONLY inside that directory. Do not read or touch /repo or /verif or any other directory (except /venv/lib/python3.12/site-packages/boolean for reading boolean.py).

The property (id {pid}) that users rely on:

---
{json.dumps(text, indent=1, ensure_ascii=False)}
---

Task: make ONE realistic change to the library source under {wt}/src/license_expression/ (the kind of change a maintainer might make in a refactoring, optimisation, clean-up, bug fix attempt or feature commit - NOT sabotage that is obviously wrong at first sight, and not a change to the tests) such that:
  1. the property above no longer holds for at least one concrete input / call sequence, and
  2. the whole existing test suite still passes:  cd {wt} && PYTHONPATH={wt}/src /venv/bin/python -m pytest -q -p no:cacheprovider   (must report 187 passed)

Prefer a subtle change: one that fails only on a narrow class of inputs (particular table shapes, flag combinations, call orders, repeated calls, unusual but legal characters, deep nesting, many operands, particular key orderings, rarely used entry points or keyword arguments, objects instead of strings, subclasses, the content and attributes of errors, the interaction of two public calls, state kept at module or class level ...), so that a checker that only samples ordinary inputs would miss it. Earlier changes of this kind for this property needed the following to show up - find something DIFFERENT in mechanism and in the inputs that expose it:
{chr(10).join(earlier) if earlier else '- (none)'}

Deliver, in {wt}:
  - patch.diff : output of `git diff -- src` (only files under src/)
  - demo.py    : a small script run as `PYTHONPATH={wt}/src /venv/bin/python demo.py` that exits with status 1 (printing what went wrong) when the change is applied and exits 0 on the unchanged code (check both with `git apply -R patch.diff` / `git apply patch.diff`). It must demonstrate a violation of the property as stated, not merely a behaviour difference. Put its body under `if __name__ == '__main__':` (pytest collects every .py file here).
  - notes.md   : 5-10 lines: what the change is, why a maintainer might make it, exactly which inputs expose it, and why the tests do not.
Leave the change applied in the worktree when you finish. Your final answer: one short paragraph summarising the change and the exposing inputs.
""")
print('prepared', len(props))
