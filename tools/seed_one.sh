#!/bin/bash
# verify a delivered seeded change, run its own quick check against it, remove the worktree
# usage: seed_one.sh <Cxx> <suffix> <round>
cd /verif
/venv/bin/python tools/verify_seed.py /tmp/wt_$1$2 $1 $2 $3 > /tmp/verify_seed.out 2>&1; rc=$?; tail -3 /tmp/verify_seed.out; [ $rc -eq 0 ] || { echo "rejected: worktree kept"; exit 1; }
/venv/bin/python tools/run_seeded.py $1$2 2>&1 | tail -3
git -C /repo status --short | head -3
git -C /repo worktree remove --force /tmp/wt_$1$2
