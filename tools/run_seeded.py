#!/venv/bin/python
"""Apply each seeded change of /verif/seeded to /repo, run the named checks, undo it; print what was reported.
usage: run_seeded.py [seed-id ...] [--checks C01,C02] [--tier quick]"""
import json
import os
import subprocess
import sys

VERIF = '/verif'
args = [a for a in sys.argv[1:] if not a.startswith('--')]
opts = dict(a[2:].split('=', 1) for a in sys.argv[1:] if a.startswith('--') and '=' in a)
seeds = args or sorted(d for d in os.listdir(os.path.join(VERIF, 'seeded')) if os.path.isdir(os.path.join(VERIF, 'seeded', d)))
tier = opts.get('tier', 'quick')
import shutil
import tempfile
keep = tempfile.mkdtemp(prefix='evid-keep-')
shutil.copytree(os.path.join(VERIF, 'evidence'), os.path.join(keep, 'evidence'))   # evidence of seeded runs is not evidence
out = {}
for sid in seeds:
    d = os.path.join(VERIF, 'seeded', sid)
    meta = json.load(open(os.path.join(d, 'meta.json')))
    checks = opts.get('checks', meta['property']).split(',')
    assert subprocess.run(['git', '-C', '/repo', 'status', '--porcelain'], capture_output=True).stdout.strip() == b'', '/repo is not clean'
    subprocess.run(['git', '-C', '/repo', 'apply', os.path.join(d, 'patch.diff')], check=True)
    try:
        for c in checks:
            p = subprocess.run(['/venv/bin/python', os.path.join(VERIF, 'check.py'), c, '--tier', tier], capture_output=True, text=True, cwd=VERIF)
            viol = [l for l in p.stdout.split('\n') if l.startswith('VIOLATION')]
            print('%s -> check %s: rc=%d %s' % (sid, c, p.returncode, viol[:1] or p.stdout.strip().split('\n')[-1:]))
            out.setdefault(sid, {})[c] = {'rc': p.returncode, 'line': viol[:1]}
            sys.stdout.flush()
    finally:
        subprocess.run(['git', '-C', '/repo', 'checkout', '--', '.'], check=True)
try:
    allout = json.load(open('/tmp/run_seeded.json'))
except Exception:  # noqa
    allout = {}
allout.update(out)
json.dump(allout, open('/tmp/run_seeded.json', 'w'), indent=1)
shutil.rmtree(os.path.join(VERIF, 'evidence'))
shutil.copytree(os.path.join(keep, 'evidence'), os.path.join(VERIF, 'evidence'))
shutil.rmtree(keep)
